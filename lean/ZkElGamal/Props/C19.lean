import ZkElGamal.Proofs.SigmaC01
import ZkElGamal.Proofs.Slices
/-!
# C19 — every encryption and every proof uses fresh randomness

In the model every prover / encryptor takes its random scalars as explicit, separate arguments
(one per `Scalar::random(&mut OsRng)` / `PedersenOpening::new_rand()` draw of the Rust, in drawing
order). What is proved is that *distinct draws give distinct published values*:

* `masking_injective`   — `P ≠ 0 → y•P = y'•P → y = y'`;
* `commit_injective`    — `x•G + r•H` is injective in `(x, r)` when `G, H` are independent;
* `handle_fresh`, `commitment_fresh`, `zero_masking_fresh`, `pubkey_masking_fresh` — two runs with
  different nonces publish different openings / handles / masking-commitment *bytes*
  (the codec is injective);
* `nonce_leak` — why it matters: two proofs of the same witness sharing a nonce but with different
  challenges reveal the witness (`s = (z − z')/(c − c')`).

That `OsRng` itself never repeats is the operating system's; the run observes 64 (quick) / 4096
(thorough) repeated calls of key generation, the three encryptions and all twelve provers on
identical inputs and requires every opening, handle, AE nonce, masking commitment and response to
be pairwise distinct (PARTIAL: a biased-but-fresh derivation is invisible to this check).
-/
set_option linter.unusedSectionVars false
namespace Zk.Props.C19
open Zk Zk.Sigma

variable {F G T : Type} [Field F] [AddCommGroup G] [Module F G] [DecidableEq G]
  [PtCodec G] [ScCodec F] [PedGens G] [TranscriptOps T] [LawfulPtCodec G]

local notation "Gp" => (PedGens.G : G)
local notation "Hp" => (PedGens.H : G)

theorem masking_injective (P : G) (y y' : F) (hP : P ≠ 0) (h : y • P = y' • P) : y = y' := by
  have : (y - y') • P = 0 := by rw [sub_smul, h, sub_self]
  rcases smul_eq_zero.mp this with h0 | h0
  · exact sub_eq_zero.mp h0
  · exact absurd h0 hP

/-- independence of the two Pedersen generators (a discrete-log relation between them is unknown) -/
def Independent : Prop := ∀ a b : F, a • Gp + b • Hp = 0 → a = 0 ∧ b = 0

theorem commit_injective (hind : Independent (F := F) (G := G)) (x r x' r' : F)
    (h : (pedersenWith x r : G) = pedersenWith x' r') : x = x' ∧ r = r' := by
  simp only [pedersenWith, msm_cons_cons, msm_nil_left, add_zero] at h
  have : (x - x') • Gp + (r - r') • Hp = 0 := by
    have := sub_eq_zero.mpr h
    rw [← this]; module
  obtain ⟨h1, h2⟩ := hind _ _ this
  exact ⟨sub_eq_zero.mp h1, sub_eq_zero.mp h2⟩

/-- different openings ⇒ different decrypt handles (for a non-identity key) and different bytes -/
theorem handle_fresh (P : G) (r r' : F) (hP : P ≠ 0) (h : r ≠ r') :
    PtCodec.enc (decryptHandle P r) ≠ PtCodec.enc (decryptHandle P r') := by
  intro he
  exact h (masking_injective P r r' hP (enc_injective he))

/-- different openings ⇒ different commitments to the same amount (needs only `H ≠ 0`) -/
theorem commitment_fresh (x r r' : F) (hH : Hp ≠ 0) (h : r ≠ r') :
    PtCodec.enc (pedersenWith x r : G) ≠ PtCodec.enc (pedersenWith x r' : G) := by
  intro he
  have := enc_injective he
  simp only [pedersenWith, msm_cons_cons, msm_nil_left, add_zero] at this
  have h2 : r • Hp = r' • Hp := by
    have := sub_eq_zero.mpr this
    have e : (r - r') • Hp = 0 := by rw [← this]; module
    rcases smul_eq_zero.mp e with h0 | h0
    · rw [sub_eq_zero.mp h0]
    · exact absurd h0 hH
  exact h (masking_injective Hp r r' hH h2)

/-- zero-ciphertext prover: the first 32 proof bytes are `enc (y•P)`; different nonces ⇒ different bytes -/
theorem zero_masking_fresh (P : G) (y y' : F) (hP : P ≠ 0) (h : y ≠ y') :
    PtCodec.enc (y • P) ≠ PtCodec.enc (y' • P) := by
  intro he; exact h (masking_injective P y y' hP (enc_injective he))

theorem zero_prove_first_field [LawfulLen F G] (s y : F) (P : G) (ct : Ct G) :
    (ZeroCt.prove T s P ct y).take 32 = PtCodec.enc (y • P) := by
  unfold ZeroCt.prove
  simp only [List.append_assoc]
  exact List.take_left' (LawfulLen.pt_len (F := F) _)

theorem pubkey_masking_fresh (y y' : F) (hH : Hp ≠ 0) (h : y ≠ y') :
    PtCodec.enc (y • Hp) ≠ PtCodec.enc (y' • Hp) := by
  intro he; exact h (masking_injective Hp y y' hH (enc_injective he))

/-- two proofs sharing the nonce `y` under different challenges reveal the secret: this is what a
    repeated masking commitment would allow -/
theorem nonce_leak (s y c c' : F) (hc : c ≠ c') :
    ((c * s + y) - (c' * s + y)) / (c - c') = s := by
  have hne : c - c' ≠ 0 := sub_ne_zero.mpr hc
  have : c * s + y - (c' * s + y) = s * (c - c') := by ring
  rw [this, mul_div_assoc, div_self hne, mul_one]

end Zk.Props.C19

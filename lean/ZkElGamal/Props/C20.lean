import ZkElGamal.Proofs.SigmaC03
import ZkElGamal.Proofs.SigmaC02b
import ZkElGamal.Model.Range
/-!
# C20 — provers refuse witnesses that do not match the statement

`X.new_none_iff` : the constructor returns the inconsistent-input error **iff** the witness
violates the relation, spelled out per constructor. (Range-proof constructors: see C04.)
-/
set_option linter.unusedSectionVars false
namespace Zk.Props.C20
open Zk Zk.Sigma

variable {F G T : Type} [Field F] [AddCommGroup G] [Module F G] [DecidableEq G]
  [PtCodec G] [ScCodec F] [PedGens G] [TranscriptOps T]

local notation "Gp" => (PedGens.G : G)
local notation "Hp" => (PedGens.H : G)

/-- zero-ciphertext: refused iff the ciphertext does not decrypt to the identity -/
theorem zero_new_none_iff (s y : F) (P : G) (ct : Ct G) :
    ZeroCt.new T s P ct y = none ↔ decryptTarget s ct ≠ 0 := by
  unfold ZeroCt.new; split <;> simp_all

/-- pubkey validity: the constructor has no consistency check and never refuses -/
theorem pubkey_new_some (s y : F) (P : G) : (PubkeyValidity.new T s P y).isSome = true := rfl

/-- ct–ct equality: first ciphertext must decrypt to the amount, second must be *the* encryption
    of the amount under the second key with the given opening -/
theorem ctct_new_none_iff (s r ys yx yr : F) (P1 P2 : G) (ct1 ct2 : Ct G) (amount : ℕ) :
    CtCtEq.new T s P1 P2 ct1 ct2 r amount ys yx yr = none ↔
      ¬ (decryptTarget s ct1 = (ScCodec.ofNat amount : F) • Gp ∧
         ct2.C = pedersenWith (ScCodec.ofNat amount : F) r ∧ ct2.D = decryptHandle P2 r) := by
  unfold CtCtEq.new
  simp only [encryptWith]
  by_cases h1 : decryptTarget s ct1 = (ScCodec.ofNat amount : F) • Gp
  · by_cases h2 : ct2.C = pedersenWith (ScCodec.ofNat amount : F) r
    · by_cases h3 : ct2.D = decryptHandle P2 r
      · simp [h1, h2, h3]
      · simp [h1, h2, h3]
    · simp [h1, h2]
  · simp [h1]

/-- ct–commitment equality -/
theorem ctcmt_new_none_iff (s r ys yx yr : F) (P Cm : G) (ct : Ct G) (amount : ℕ) :
    CtCmtEq.new T s P ct Cm r amount ys yx yr = none ↔
      ¬ (decryptTarget s ct = (ScCodec.ofNat amount : F) • Gp ∧
         Cm = pedersenWith (ScCodec.ofNat amount : F) r) := by
  unfold CtCmtEq.new
  simp only
  by_cases h1 : decryptTarget s ct = (ScCodec.ofNat amount : F) • Gp
  · by_cases h2 : Cm = pedersenWith (ScCodec.ofNat amount : F) r
    · simp [h1, h2]
    · simp [h1, h2]
  · simp [h1]

/-- equality test on grouped ciphertexts used by the constructors -/
theorem gctEq_iff (a b : GCt G) : Validity.gctEq a b = true ↔ a = b := by
  obtain ⟨aC, aDs⟩ := a
  obtain ⟨bC, bDs⟩ := b
  simp only [Validity.gctEq, Bool.and_eq_true, beq_iff_eq, GCt.mk.injEq]
  constructor
  · rintro ⟨⟨hC, hl⟩, hz⟩
    refine ⟨hC, ?_⟩
    induction aDs generalizing bDs with
    | nil => cases bDs <;> simp_all
    | cons x xs ih =>
      cases bDs with
      | nil => simp at hl
      | cons y ys =>
        simp only [List.zipWith_cons_cons, List.all_cons, Bool.and_eq_true, beq_iff_eq, id] at hz
        simp only [List.length_cons, Nat.add_right_cancel_iff] at hl
        rw [hz.1, ih ys hz.2 hl]
  · rintro ⟨rfl, rfl⟩
    refine ⟨⟨rfl, rfl⟩, ?_⟩
    induction aDs with
    | nil => simp
    | cons x xs ih => simp [ih]

/-- grouped validity (any number of handles): refused iff the grouped ciphertext is not exactly
    the encryption of the amount under the given keys with the given opening -/
theorem validity_new_none_iff (n : ℕ) (Ps : List G) (g : GCt G) (amount : ℕ) (r yr yx : F) :
    Validity.new T n Ps g amount r yr yx = none ↔
      g ≠ groupedEncryptWith Ps (ScCodec.ofNat amount : F) r := by
  unfold Validity.new
  simp only
  by_cases h : g = groupedEncryptWith Ps (ScCodec.ofNat amount : F) r
  · have := (gctEq_iff g _).mpr h
    simp [this]
    exact h
  · have : ¬ Validity.gctEq g (groupedEncryptWith Ps (ScCodec.ofNat amount : F) r) = true :=
      fun hh => h ((gctEq_iff g _).mp hh)
    simp [this, h]

/-- batched grouped validity: lo and hi are checked separately -/
theorem batched_validity_new_none_iff (n : ℕ) (Ps : List G) (lo hi : GCt G) (aLo aHi : ℕ)
    (rLo rHi yr yx : F) :
    BatchedValidity.new T n Ps lo hi aLo aHi rLo rHi yr yx = none ↔
      ¬ (lo = groupedEncryptWith Ps (ScCodec.ofNat aLo : F) rLo ∧
         hi = groupedEncryptWith Ps (ScCodec.ofNat aHi : F) rHi) := by
  unfold BatchedValidity.new
  simp only
  by_cases h1 : lo = groupedEncryptWith Ps (ScCodec.ofNat aLo : F) rLo
  · have e1 := (gctEq_iff lo _).mpr h1
    by_cases h2 : hi = groupedEncryptWith Ps (ScCodec.ofNat aHi : F) rHi
    · have e2 := (gctEq_iff hi _).mpr h2
      simp [e1, e2]
      exact ⟨h1, h2⟩
    · have e2 : ¬ Validity.gctEq hi (groupedEncryptWith Ps (ScCodec.ofNat aHi : F) rHi) = true :=
        fun hh => h2 ((gctEq_iff hi _).mp hh)
      simp [e1, e2]
      exact fun _ => h2
  · have e1 : ¬ Validity.gctEq lo (groupedEncryptWith Ps (ScCodec.ofNat aLo : F) rLo) = true :=
      fun hh => h1 ((gctEq_iff lo _).mp hh)
    simp [e1]
    exact fun hh => absurd hh h1

/-- cap proof: percentage and claimed commitments always, the delta commitment only below the cap -/
theorem cap_new_none_iff (Cm Cd Cc : G) (mx pct delta : ℕ) (rp rd rc : F) (n : Cap.Nonces F) :
    Cap.new T Cm Cd Cc mx pct delta rp rd rc n = none ↔
      ¬ (Cm = pedersenWith (ScCodec.ofNat pct : F) rp ∧
         (pct < mx → Cd = pedersenWith (ScCodec.ofNat delta : F) rd) ∧
         Cc = pedersenWith (ScCodec.ofNat delta : F) rc) := by
  unfold Cap.new
  by_cases h1 : Cm = pedersenWith (ScCodec.ofNat pct : F) rp
  · by_cases h2 : pct < mx
    · by_cases h3 : Cd = pedersenWith (ScCodec.ofNat delta : F) rd
      · by_cases h4 : Cc = pedersenWith (ScCodec.ofNat delta : F) rc
        · simp [h1, h2, h3, h4]
        · simp [h1, h2, h3, h4]
      · simp [h1, h2, h3]
    · by_cases h4 : Cc = pedersenWith (ScCodec.ofNat delta : F) rc
      · simp [h1, h2, h4]
      · simp [h1, h2, h4]
  · simp [h1]

/-- non-vacuity of the "delta only below the cap" clause: at the cap any delta commitment passes -/
theorem cap_at_cap_delta_free (Cm Cd Cc : G) (mx pct delta : ℕ) (rp rd rc : F) (n : Cap.Nonces F)
    (hcap : ¬ pct < mx) (h1 : Cm = pedersenWith (ScCodec.ofNat pct : F) rp)
    (h4 : Cc = pedersenWith (ScCodec.ofNat delta : F) rc) :
    (Cap.new T Cm Cd Cc mx pct delta rp rd rc n).isSome = true := by
  have := (cap_new_none_iff (T := T) Cm Cd Cc mx pct delta rp rd rc n).not
  rw [Option.isSome_iff_ne_none]
  apply this.mpr
  simp only [not_not]
  exact ⟨h1, fun h => absurd h hcap, h4⟩

end Zk.Props.C20

namespace Zk.Props.C20
open Zk Zk.Range
variable {F G T : Type} [Field F] [AddCommGroup G] [Module F G] [DecidableEq G]
  [PtCodec G] [ScCodec F] [PedGens G] [TranscriptOps T]

/-- range-proof constructors: refused iff the bit lengths do not sum to the instruction width, or the
    vector lengths differ, or there are more than eight commitments, or a commitment is the identity,
    or a bit length is zero or above 64 -/
theorem range_new_none_iff (gens : ℕ → List G × List G) (width : ℕ) (comms : List G) (amounts bls : List ℕ)
    (opens : List F) (nz : Nonces F) :
    Range.new T gens width comms amounts bls opens nz = none ↔
      bls.sum ≠ width ∨
      (comms.length > 8 ∨ comms.length ≠ amounts.length ∨ comms.length ≠ bls.length ∨ comms.length ≠ opens.length) ∨
      (∃ V ∈ comms, V = 0) ∨ (∃ n ∈ bls, n = 0 ∨ n > 64) := by
  unfold Range.new
  by_cases h1 : bls.sum ≠ width
  · simp [h1]
  · by_cases h2 : comms.length > 8 ∨ comms.length ≠ amounts.length ∨ comms.length ≠ bls.length ∨
        comms.length ≠ opens.length
    · simp [h1, h2]
    · by_cases h3 : ∃ V ∈ comms, V = 0
      · have : (comms.any (· == 0)) = true := by
          obtain ⟨V, hV, h0⟩ := h3; rw [List.any_eq_true]; exact ⟨V, hV, by simp [h0]⟩
        simp only [h1, if_false, h2, this, if_true, true_iff]
        exact Or.inr (Or.inr (Or.inl h3))
      · have hn : ¬ (comms.any (· == 0)) = true := by
          rw [List.any_eq_true]; rintro ⟨V, hV, h0⟩; exact h3 ⟨V, hV, by simpa using h0⟩
        by_cases h4 : ∃ n ∈ bls, n = 0 ∨ n > 64
        · simp only [h1, if_false, h2, hn, Bool.false_eq_true, true_iff]
          have : (bls.any fun n => decide (n = 0 ∨ n > 64)) = true := by
            obtain ⟨n, hn', hb⟩ := h4; rw [List.any_eq_true]; exact ⟨n, hn', by simpa using hb⟩
          constructor
          · intro _; exact Or.inr (Or.inr (Or.inr h4))
          · intro _; split <;> simp_all
        · have h5 : ¬ (bls.any fun n => decide (n = 0 ∨ n > 64)) = true := by
            rw [List.any_eq_true]; rintro ⟨n, hn', hb⟩; exact h4 ⟨n, hn', by simpa using hb⟩
          have h6 : ¬ (bls.any (· > 255)) = true := by
            rw [List.any_eq_true]; rintro ⟨n, hn', hb⟩
            apply h4; refine ⟨n, hn', Or.inr ?_⟩
            have : n > 255 := by simpa using hb
            omega
          simp only [h1, if_false, h2, hn, Bool.false_eq_true, h6, h5, reduceCtorEq, false_iff]
          rintro (hf | hf | hf | hf)
          · exact hf
          · exact hf
          · exact h3 hf
          · exact h4 hf

end Zk.Props.C20

#!/usr/bin/env python3
"""Regenerates MANIFEST.json from checklib/props.py (keeps it valid and current)."""
import json, os, sys
V = os.path.dirname(os.path.abspath(__file__))
sys.path.insert(0, os.path.join(V, "checklib"))
from props import PROPS, MANIFEST_TEXT

all_ids = [json.loads(l)["id"] for l in open(os.path.join(V, "properties.jsonl"))]
checks = []
for pid in all_ids:
    if pid not in PROPS or pid not in MANIFEST_TEXT:
        continue
    m = MANIFEST_TEXT[pid]
    checks.append({
        "property_id": pid,
        "quick_cmd": f"./check {pid} --tier quick",
        "thorough_cmd": f"./check {pid} --tier thorough",
        "evidence_file": f"/verif/evidence/{pid}.json",
        "replay_cmd_template": f"./check {pid} --replay {{path}}",
        "engine": "lean4-model+correspondence",
        "level_claimed": {"category": "proof", "text": m["text"], "design_ref": m.get("design_ref", "DESIGN.md §6 " + pid)},
        "level_note": m["note"],
        "technique": m["technique"],
    })
na = [{"property_id": pid, "reason": "check not built yet in this revision of /verif (work in progress; Lean proof + correspondence planned, see DESIGN.md §6)"}
      for pid in all_ids if pid not in {c["property_id"] for c in checks}]
man = {
    "version": 1,
    "setup_cmd": "./setup.sh",
    "hooks": {"guard": "cargo feature `verif-hooks` of solana-zk-sdk (off by default)",
              "enable": "the harness depends on the SDK with features = [\"verif-hooks\"] (harness/Cargo.toml); the feature only adds "
                        "transcript::verif_hooks, a per-thread log of the labels and values of every challenge drawn through "
                        "TranscriptProtocol::challenge_scalar, read by the harness after each verification",
              "baseline_off_cmd": "cd /repo && cargo test --workspace --no-fail-fast --offline",
              "source_commits": ["25e18a1", "98bb0a7"], "add_only": True},
    "engines": [{"name": "lean4-model+correspondence", "path": "/verif/check",
                 "serves_properties": [c["property_id"] for c in checks],
                 "kind_free_text": "Lean 4 theorems over a generic executable model (lean/), tables regenerated from source by translate/translate.py, "
                                   "differential correspondence of the compiled model (zkmodel) against the real SDK (harness/zkh)"}],
    "checks": checks,
    "notes": "See DESIGN.md. Every check: translator -> lake build (theorems re-checked) -> axiom audit -> cargo build of the harness against /repo's working tree -> seeded correspondence -> evidence.",
    "not_applicable": na,
}
json.dump(man, open(os.path.join(V, "MANIFEST.json"), "w"), indent=1)
print("claimed:", [c["property_id"] for c in checks], "unclaimed:", [n["property_id"] for n in na])

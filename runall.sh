#!/bin/sh
# run every claimed check (quick) on the current tree; used before committing evidence
cd /verif
for c in $(python3 -c "import json;print(' '.join(x['property_id'] for x in json.load(open('MANIFEST.json'))['checks']))"); do
  ./check $c --tier ${1:-quick} 2>&1 | grep -E "^(C[0-9]+ |VIOLATION|BROKEN|KNOWN|MACHINERY)" | cut -c1-250
done

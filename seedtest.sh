#!/bin/sh
# usage: seedtest.sh <patch.diff> <Cxx> [Cyy ...]  : apply patch to /repo, run quick checks, revert
P="$1"; shift
cd /repo || exit 2
git diff --quiet || { echo "repo dirty"; exit 2; }
git apply "$P" || { echo "patch does not apply"; exit 2; }
for c in "$@"; do
  (cd /verif && ./check "$c" 2>&1 | grep -E "^(C[0-9]+ |VIOLATION|BROKEN|KNOWN|MACHINERY)" | cut -c1-300)
done
git checkout -- . && git status --short | head -3

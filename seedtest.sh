#!/bin/sh
# usage: seedtest.sh <patch.diff> <Cxx> [Cyy ...]  : apply patch to /repo, run quick checks, revert.
# Evidence files are saved and restored: committed evidence must come from the unchanged tree.
P="$1"; shift
cd /repo || exit 2
git diff --quiet || { echo "repo dirty"; exit 2; }
git apply "$P" || { echo "patch does not apply"; exit 2; }
rm -rf /verif/work/evidence.bak && cp -r /verif/evidence /verif/work/evidence.bak
for c in "$@"; do
  (cd /verif && ./check "$c" 2>&1 | grep -E "^(C[0-9]+ |VIOLATION|BROKEN|KNOWN|MACHINERY)" | cut -c1-300)
done
rm -rf /verif/evidence && mv /verif/work/evidence.bak /verif/evidence
git checkout -- . && git status --short | head -3

#!/bin/sh
# Build the framework from files on disk only (offline).
set -e
cd "$(dirname "$0")"
export CARGO_NET_OFFLINE=true
python3 translate/translate.py
(cd lean && lake build ZkElGamal zkmodel)
(cd harness && cargo build --offline)
echo setup-ok

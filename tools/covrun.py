#!/usr/bin/env python3
"""covrun.py [tier] : line coverage of /repo/zk-sdk/src under the correspondence inputs of all properties.

Supporting tool (not a check): builds the harness with `-C instrument-coverage` (nightly toolchain, llvm-tools),
replays the generated op streams of every property — including the staged ops emitted by the harness and by the
model — and prints the source regions of zk-sdk/src that no op reached. Used to find blind spots of the generators.
Scratch output under /scratch/cov (removed by the caller)."""
import glob, os, subprocess, sys, json, re
from concurrent.futures import ThreadPoolExecutor

V = "/verif"
TIER = sys.argv[1] if len(sys.argv) > 1 else "quick"
COV = "/scratch/cov"
ZKH = f"{COV}/debug/zkh"
ZKMODEL = f"{V}/lean/.lake/build/bin/zkmodel"
BIN = os.path.expanduser("~/.rustup/toolchains/nightly-x86_64-unknown-linux-gnu/lib/rustlib/x86_64-unknown-linux-gnu/bin")
env = dict(os.environ, CARGO_NET_OFFLINE="true", CARGO_TARGET_DIR=COV, RUSTFLAGS="-C instrument-coverage",
           LLVM_PROFILE_FILE=f"{COV}/prof/%p-%m.profraw")
subprocess.run(["cargo", "+nightly", "build"], cwd=f"{V}/harness", env=env, check=True, capture_output=True)
os.makedirs(f"{COV}/prof", exist_ok=True)
for f in glob.glob(f"{COV}/prof/*.profraw"):
    os.remove(f)

def run(cmd, lines, jobs=16):
    chunks = [lines[i::jobs] for i in range(jobs)]
    def one(ch):
        if not ch:
            return ""
        return subprocess.run(cmd, input="\n".join(ch) + "\n", capture_output=True, text=True, env=env).stdout
    out = {}
    with ThreadPoolExecutor(jobs) as ex:
        for o in ex.map(one, chunks):
            for l in o.split("\n"):
                i, _, r = l.partition(" ")
                if i:
                    out[i] = r
    return out

sys.path.insert(0, V)
from checklib.props import PROPS
total = 0
for pid, P in sorted(PROPS.items()):
    lines = []
    for f in sorted(glob.glob(f"{V}/corpus/{pid}*.ops")):
        lines += [l.rstrip("\n") for l in open(f) if l.strip() and not l.startswith("#")]
    for g in P.get("gens", [pid]):
        out = subprocess.run([ZKH, "gen", g, TIER, "1"], capture_output=True, text=True, env=env).stdout
        lines += [l for l in out.split("\n") if l.strip()]
    depth, seen = 0, set()
    while lines and depth < 4:
        depth += 1
        total += len(lines)
        impl = run([ZKH, "run"], lines)
        model = run([ZKMODEL], lines)
        nxt = []
        for l in lines:
            opid = l.split(" ", 1)[0]
            for side, res in (("impl", impl.get(opid)), ("model", model.get(opid))):
                res = (res or "").split(" #")[0].split(" ~")[0]
                if res.startswith("emit:"):
                    for j, b in enumerate(res[5:].split("|")):
                        b = b.strip()
                        if b.startswith("!"):
                            b = b.partition(" ")[2]
                        if b and b not in seen:
                            seen.add(b)
                            nxt.append(f"{opid.split('!')[0]}.{side}{j} {b}")
        lines = nxt
    print(pid, "done", file=sys.stderr)
print("ops replayed:", total, file=sys.stderr)
subprocess.run([f"{BIN}/llvm-profdata", "merge", "-sparse", "-o", f"{COV}/all.profdata"] + glob.glob(f"{COV}/prof/*.profraw"), check=True)
rep = subprocess.run([f"{BIN}/llvm-cov", "export", "-format=lcov", f"-instr-profile={COV}/all.profdata", ZKH,
                      "--ignore-filename-regex=(registry|rustc|harness)"], capture_output=True, text=True).stdout
cur, unc, tot = None, {}, {}
for l in rep.split("\n"):
    if l.startswith("SF:"):
        cur = l[3:]
    elif l.startswith("DA:") and cur and "/zk-sdk/src/" in cur:
        ln, cnt = l[3:].split(",")[:2]
        tot[cur] = tot.get(cur, 0) + 1
        if int(cnt) == 0:
            unc.setdefault(cur, []).append(int(ln))
def ranges(xs):
    out, s, p = [], None, None
    for x in xs:
        if s is None:
            s = p = x
        elif x == p + 1:
            p = x
        else:
            out.append((s, p)); s = p = x
    if s is not None:
        out.append((s, p))
    return out
for f in sorted(tot):
    u = unc.get(f, [])
    print(f"{f.split('/zk-sdk/src/')[1]}: {tot[f]-len(u)}/{tot[f]} lines; uncovered: " + " ".join(f"{a}-{b}" if a != b else str(a) for a, b in ranges(u)))

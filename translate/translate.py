#!/usr/bin/env python3
"""Translator: /repo sources -> Lean tables (lean/ZkElGamal/Generated/Tables.lean) + JSON.

Regenerated on every check run, so that the `decide` theorems of C06/C15/C16/C17/C18
are re-checked by the Lean kernel against what the source says *now*.

Extracted:
  * `#[repr(u8)]` enums ProofInstruction / ProofType (variant order = discriminant)
  * every Pod struct (repr(C) / repr(transparent)) with field types, resolved to byte sizes
    through the `const ..._LEN: usize = <expr>` definitions
  * `const PROOF_TYPE: ProofType = ProofType::X` of every `impl ZkProofData<Ctx> for Data`
  * every `b"..."` transcript label, with the file and function it occurs in, in source order
  * derive / zeroize(drop) attributes and `impl fmt::Debug` bodies of the secret types
  * TypeScript client: enums, constants, program address
"""
import json, os, re, sys

REPO = os.environ.get("ZK_REPO", "/repo")
SRC = os.path.join(REPO, "zk-sdk/src")
JS = os.path.join(REPO, "clients/js/src")
_HERE = os.path.dirname(os.path.dirname(os.path.abspath(__file__)))   # the verif directory this script lives in
OUT_LEAN = sys.argv[1] if len(sys.argv) > 1 else os.path.join(_HERE, "lean/ZkElGamal/Generated/Tables.lean")
OUT_JSON = sys.argv[2] if len(sys.argv) > 2 else os.path.join(_HERE, "lean/ZkElGamal/Generated/tables.json")


def read(p):
    with open(p, encoding="utf-8") as f:
        return f.read()


def strip_comments(s):
    s = re.sub(r"/\*.*?\*/", "", s, flags=re.S)
    out = []
    for line in s.split("\n"):
        # remove // comments (not inside string literals; labels never contain //)
        i = line.find("//")
        if i >= 0 and line[:i].count('"') % 2 == 0:
            line = line[:i]
        out.append(line)
    return "\n".join(out)


def strip_tests(s):
    """drop `#[cfg(test)] mod test(s) { ... }` (always the tail of the file in this repo)"""
    m = re.search(r"#\[cfg\(test\)\]\s*mod\s+tests?\s*\{", s)
    return s[: m.start()] if m else s


def rs_files():
    r = []
    for d, _, fs in os.walk(SRC):
        for f in sorted(fs):
            if f.endswith(".rs"):
                r.append(os.path.join(d, f))
    return sorted(r)


# ---------------------------------------------------------------- enums
def parse_enum(text, name):
    m = re.search(r"#\[repr\(u8\)\]\s*pub enum " + name + r"\s*\{(.*?)\n\}", text, flags=re.S)
    if not m:
        raise SystemExit(f"translator: enum {name} with #[repr(u8)] not found")
    body = strip_comments(m.group(1))
    variants = []
    nxt = 0
    for item in body.split(","):
        item = item.strip()
        if not item:
            continue
        item = re.sub(r"#\[[^\]]*\]", "", item).strip()
        mm = re.match(r"^([A-Za-z0-9_]+)\s*(?:=\s*(\d+))?$", item)
        if not mm:
            raise SystemExit(f"translator: cannot parse variant {item!r} of {name}")
        if mm.group(2) is not None:
            nxt = int(mm.group(2))
        variants.append((mm.group(1), nxt))
        nxt += 1
    return variants


# ---------------------------------------------------------------- consts and struct sizes
def collect_consts(files):
    consts = {}
    exprs = {}
    for p in files:
        s = strip_comments(read(p))
        for m in re.finditer(r"const\s+([A-Z0-9_]+)\s*:\s*usize\s*=\s*([^;]+);", s):
            exprs.setdefault(m.group(1), set()).add(re.sub(r"\s+", " ", m.group(2).strip()))
    # resolve
    def ev(expr, depth=0):
        if depth > 20:
            raise SystemExit("translator: const recursion")
        expr = expr.replace("crate::", "")
        toks = re.findall(r"[A-Z][A-Z0-9_]*|\d+|[+*()\-]", expr)
        if "".join(toks) != re.sub(r"\s+", "", expr):
            return None
        vals = []
        for t in toks:
            if re.match(r"[A-Z]", t):
                v = get(t, depth + 1)
                if v is None:
                    return None
                vals.append(str(v))
            else:
                vals.append(t)
        try:
            return int(eval("".join(vals), {"__builtins__": {}}))
        except Exception:
            return None
    def get(name, depth=0):
        if name in consts:
            return consts[name]
        if name not in exprs:
            return None
        vs = {ev(e, depth) for e in exprs[name]}
        vs.discard(None)
        if len(vs) != 1:
            return None   # undefined or ambiguous (function-local consts of the same name)
        consts[name] = vs.pop()
        return consts[name]
    for n in list(exprs):
        get(n)
    return consts


PRIM = {"u8": 1, "u16": 2, "u32": 4, "u64": 8, "Address": 32}


def collect_structs(files, consts):
    """name -> list of (field, type string) for repr(C); repr(transparent) tuple -> [("0", type)]"""
    structs = {}
    for p in files:
        s = strip_tests(strip_comments(read(p)))
        for m in re.finditer(r"#\[repr\((C|transparent)\)\]\s*pub struct (\w+)(?:<[^>]*>)?\s*(\{.*?\n\}|\(.*?\);)", s, flags=re.S):
            kind, name, body = m.group(1), m.group(2), m.group(3)
            fields = []
            if body.startswith("{"):
                for fm in re.finditer(r"pub\s+(\w+)\s*:\s*([^,\n]+),", body):
                    fields.append((fm.group(1), fm.group(2).strip()))
            else:
                inner = body[1:body.rindex(")")]
                inner = re.sub(r"pub(\([a-z]+\))?\s*", "", inner).strip().rstrip(",").strip()
                fields.append(("0", re.sub(r"\s+", " ", inner)))
            structs[name] = {"repr": kind, "fields": fields, "file": os.path.relpath(p, REPO)}
    return structs


def size_of(ty, structs, consts, depth=0):
    ty = ty.strip()
    if depth > 10:
        return None
    if ty in PRIM:
        return PRIM[ty]
    m = re.match(r"^\[\s*(.+?)\s*;\s*([A-Za-z0-9_]+)\s*\]$", ty)
    if m:
        inner = size_of(m.group(1), structs, consts, depth + 1)
        n = int(m.group(2)) if m.group(2).isdigit() else consts.get(m.group(2))
        if inner is None or n is None:
            return None
        return inner * n
    if ty in structs:
        tot = 0
        for _, ft in structs[ty]["fields"]:
            sz = size_of(ft, structs, consts, depth + 1)
            if sz is None:
                return None
            tot += sz
        return tot
    return None


# ---------------------------------------------------------------- labels
def collect_labels(files):
    """[(file, function, label)] in source order; test modules excluded"""
    out = []
    for p in files:
        s = strip_tests(strip_comments(read(p)))
        # locate function starts
        fns = [(m.start(), m.group(1)) for m in re.finditer(r"\bfn\s+(\w+)", s)]
        for m in re.finditer(r'b"([^"\\]*)"', s):
            fn = ""
            for st, nm in fns:
                if st < m.start():
                    fn = nm
            out.append((os.path.relpath(p, SRC), fn, m.group(1)))
    return out


# ---------------------------------------------------------------- secrets (C18)
SECRET_TYPES = ["ElGamalSecretKey", "ElGamalKeypair", "PedersenOpening", "AeKey"]


def collect_secrets(files):
    res = {}
    for p in files:
        s = strip_tests(strip_comments(read(p)))
        for t in SECRET_TYPES:
            m = re.search(r"((?:#\[[^\]]*\]\s*)+)pub struct " + t + r"\b", s)
            if not m:
                continue
            attrs = m.group(1)
            derives = []
            for dm in re.finditer(r"#\[derive\(([^)]*)\)\]", attrs):
                derives += [d.strip() for d in dm.group(1).split(",") if d.strip()]
            zdrop = bool(re.search(r"#\[zeroize\(drop\)\]", attrs)) or "ZeroizeOnDrop" in derives
            dbg = None
            dm = re.search(r"impl fmt::Debug for " + t + r"\s*\{(.*?)\n\}", s, flags=re.S)
            if dm:
                body = dm.group(1)
                fields = re.findall(r'\.field\(\s*(?:"(\w+)"\s*,\s*)?&([^)]*)\)', body)
                kind = "struct" if "debug_struct" in body else ("tuple" if "debug_tuple" in body else "other")
                dbg = {"kind": kind, "fields": [[a, re.sub(r"\s+", "", b)] for a, b in fields]}
            res[t] = {"file": os.path.relpath(p, REPO), "derives": derives, "zeroize_drop": zdrop,
                      "manual_debug": dbg, "derive_debug": "Debug" in derives}
    return res


# ---------------------------------------------------------------- TypeScript
def ts_enum(text, name):
    m = re.search(r"export enum " + name + r"\s*\{(.*?)\}", text, flags=re.S)
    if not m:
        raise SystemExit(f"translator: TS enum {name} not found")
    vs = []
    nxt = 0
    for item in strip_comments(m.group(1)).split(","):
        item = item.strip()
        if not item:
            continue
        mm = re.match(r"^(\w+)\s*(?:=\s*(\d+))?$", item)
        if not mm:
            raise SystemExit(f"translator: cannot parse TS variant {item!r}")
        if mm.group(2) is not None:
            nxt = int(mm.group(2))
        vs.append((mm.group(1), nxt))
        nxt += 1
    return vs


def ts_consts(text):
    vals = {}
    for m in re.finditer(r"export const (\w+)\s*=\s*([^;]+);", strip_comments(text)):
        name, expr = m.group(1), m.group(2).strip()
        toks = re.findall(r"[A-Z_][A-Z0-9_]*|\d+|[+*()\-]", expr)
        if "".join(toks) != re.sub(r"\s+", "", expr):
            continue
        try:
            vals[name] = int(eval("".join(str(vals[t]) if re.match(r"[A-Z_]", t) else t for t in toks), {"__builtins__": {}}))
        except Exception:
            pass
    return vals



TS_DECODER_SIZES = {"Address": 32, "U8": 1, "I8": 1, "U16": 2, "I16": 2, "U32": 4, "I32": 4, "U64": 8, "I64": 8, "U128": 16}


def ts_decoder_plan(text):
    """The client's account decoder `getProofContextStateDecoder`, read as a plan by following the offsets through
    its `read` function: [(decoder kind, size, offset read at)] for the header fields and the offset the context
    bytes are sliced from. Returns (reads, context_offset); (None, None) when the function has a form this reader
    does not follow (the theorem about it then no longer checks)."""
    m = re.search(r"export function getProofContextStateDecoder\(\)[^{]*\{(.*?)\n\}", text, flags=re.S)
    if not m:
        return None, None
    body = strip_comments(m.group(1))
    m = re.search(r"const read\s*=\s*\(\s*(\w+)[^,)]*,\s*(\w+)\s*=\s*(\d+)\s*\)[^=]*=>\s*\{(.*?)\n\s*\};", body, flags=re.S)
    if not m:
        return None, None
    buf, offname, offdef, rbody = m.group(1), m.group(2), int(m.group(3)), m.group(4)
    env = {offname: offdef}
    slices = {}

    def ev(e):
        e = e.strip()
        toks = re.findall(r"[A-Za-z_]\w*|\d+|[+*()\-]", e)
        if "".join(toks) != re.sub(r"\s+", "", e):
            raise ValueError(e)
        return int(eval("".join(str(env[t]) if re.match(r"[A-Za-z_]", t) else t for t in toks), {"__builtins__": {}}))

    reads = []
    try:
        head = rbody.split("return", 1)[0]
        ret = rbody.split("return", 1)[1] if "return" in rbody else ""
        for stmt in head.split(";"):
            st = " ".join(stmt.split())
            if not st:
                continue
            mm = re.match(r"^(?:const|let) \[\s*(\w*)\s*(?:,\s*(\w+)\s*)?\] = get(\w+)Decoder\(\)\.read\(" + buf + r",\s*(.+)\)$", st)
            if mm:
                kind = mm.group(3)
                off = ev(mm.group(4))
                reads.append((kind, TS_DECODER_SIZES[kind], off))
                if mm.group(2):
                    env[mm.group(2)] = off + TS_DECODER_SIZES[kind]
                continue
            mm = re.match(r"^(?:const|let) (\w+) = get(\w+)Decoder\(\)\.(?:decode|read)\(" + buf + r"(?:,\s*(.+))?\)(?:\[0\])?$", st)
            if mm:
                kind = mm.group(2)
                off = ev(mm.group(3)) if mm.group(3) else 0
                reads.append((kind, TS_DECODER_SIZES[kind], off))
                continue
            mm = re.match(r"^(?:const|let) (\w+) = " + buf + r"\.(?:slice|subarray)\((.+)\)$", st)
            if mm:
                slices[mm.group(1)] = ev(mm.group(2))
                continue
            mm = re.match(r"^(?:const|let) (\w+) = ([\w\s+*()\-]+)$", st)
            if mm:
                env[mm.group(1)] = ev(mm.group(2))
                continue
            raise ValueError(st)
        # which value is returned as `proofContext`
        mm = re.search(r"proofContext\s*:\s*(\w+)\s*(?:\.(?:slice|subarray)\((.+?)\))?\s*[,}]", ret)
        if mm:
            if mm.group(2) is not None and mm.group(1) == buf:
                ctx = ev(mm.group(2))
            else:
                ctx = slices[mm.group(1)]
        elif re.search(r"[{,]\s*proofContext\s*[,}]", ret):
            ctx = slices["proofContext"]
        else:
            raise ValueError("proofContext not returned")
        return reads, ctx
    except (ValueError, KeyError, SyntaxError, TypeError, ZeroDivisionError):
        return None, None


B58 = "123456789ABCDEFGHJKLMNPQRSTUVWXYZabcdefghijkmnopqrstuvwxyz"


def b58decode(s):
    n = 0
    for c in s:
        n = n * 58 + B58.index(c)
    body = n.to_bytes((n.bit_length() + 7) // 8, "big") if n else b""
    pad = len(s) - len(s.lstrip("1"))
    return b"\x00" * pad + body


def snake_upper(name):
    s = re.sub(r"(?<=[a-z0-9])(?=[A-Z])", "_", name)
    s = re.sub(r"(?<=[A-Za-z])(?=\d)", "_", s)   # Ciphertext2 -> Ciphertext_2
    return s.upper()


# ---------------------------------------------------------------- main
def lean_bytes(b):
    return "[" + ", ".join(str(x) for x in b) + "]"


def lean_str(s):
    return lean_bytes(s.encode())


def main():
    files = rs_files()
    consts = collect_consts(files)
    structs = collect_structs(files, consts)
    instr_text = read(os.path.join(SRC, "zk_elgamal_proof_program/instruction.rs"))
    pd_text = read(os.path.join(SRC, "zk_elgamal_proof_program/proof_data/mod.rs"))
    instrs = parse_enum(instr_text, "ProofInstruction")
    ptypes = parse_enum(pd_text, "ProofType")

    # ZkProofData impls: data type -> (context type, proof type)
    impls = []
    for p in files:
        s = strip_tests(strip_comments(read(p)))
        for m in re.finditer(r"impl\s+ZkProofData<\s*(\w+)\s*>\s*for\s+(\w+)\s*\{\s*const PROOF_TYPE: ProofType = ProofType::(\w+);", s):
            impls.append({"data": m.group(2), "context": m.group(1), "proof_type": m.group(3),
                          "file": os.path.relpath(p, REPO)})
    impls.sort(key=lambda d: [v for n, v in ptypes if n == d["proof_type"]] or [999])
    for d in impls:
        d["data_size"] = size_of(d["data"], structs, consts)
        d["context_size"] = size_of(d["context"], structs, consts)
        fs = structs.get(d["data"], {}).get("fields", [])
        d["data_fields"] = [[f, t, size_of(t, structs, consts)] for f, t in fs]
        d["context_fields"] = [[f, t, size_of(t, structs, consts)] for f, t in structs.get(d["context"], {}).get("fields", [])]
        if d["data_size"] is None or d["context_size"] is None:
            raise SystemExit(f"translator: cannot size {d}")
    meta_size = size_of("ProofContextStateMeta", structs, consts)
    state_fields = structs.get("ProofContextState", {}).get("fields", [])

    labels = collect_labels(files)
    secrets = collect_secrets(files)

    # --- TypeScript
    ts_prog = read(os.path.join(JS, "generic/programs/zkElGamalProof.ts"))
    ts_acc = read(os.path.join(JS, "generic/accounts/proofContextState.ts"))
    ts_cst = read(os.path.join(JS, "constants.ts"))
    ts_close = read(os.path.join(JS, "generic/instructions/closeContextState.ts"))
    ts_instrs = ts_enum(ts_prog, "ZkElGamalProofInstruction")
    ts_ptypes = ts_enum(ts_acc, "ProofType")
    meta_fields = []
    off = 0
    for f, t in structs.get("ProofContextStateMeta", {}).get("fields", []):
        sz = size_of(t, structs, consts)
        meta_fields.append((f, sz, off))
        off += sz
    ts_reads, ts_ctx_off = ts_decoder_plan(ts_acc)
    tsc = ts_consts(ts_cst)
    tsc.update({k: v for k, v in ts_consts(ts_close).items() if k == "CLOSE_CONTEXT_STATE_DISCRIMINATOR"})
    m = re.search(r"ZK_ELGAMAL_PROOF_PROGRAM_ADDRESS\s*=\s*'([1-9A-HJ-NP-Za-km-z]+)'", ts_prog)
    if not m:
        raise SystemExit("translator: TS program address not found")
    ts_addr = m.group(1)
    ts_addr_bytes = list(b58decode(ts_addr))
    # which TS action file uses which (discriminator, size constant)
    ts_actions = []
    adir = os.path.join(JS, "actions")
    for f in sorted(os.listdir(adir)):
        if not f.startswith("verify"):
            continue
        t = read(os.path.join(adir, f))
        dm = re.search(r"discriminator:\s*ZkElGamalProofInstruction\.(\w+)", t)
        sm = re.search(r"BigInt\((\w+)\)", t)
        if dm and sm:
            ts_actions.append({"file": f, "instruction": dm.group(1), "size_const": sm.group(1),
                               "size": tsc.get(sm.group(1))})
    # context sizes per proof type according to the TS actions (instruction name = "Verify"+proof type)
    ts_ctx_sizes = []
    for a in ts_actions:
        ts_ctx_sizes.append((a["instruction"][len("Verify"):], a["size"]))
    order = {n: v for n, v in ptypes}
    ts_ctx_sizes.sort(key=lambda x: order.get(x[0], 999))

    tables = {
        "rust_instructions": instrs, "rust_proof_types": ptypes, "impls": impls,
        "meta_size": meta_size, "state_fields": state_fields,
        "consts": {k: consts[k] for k in sorted(consts)},
        "labels": labels, "secrets": secrets,
        "ts_instructions": ts_instrs, "ts_proof_types": ts_ptypes, "ts_consts": tsc,
        "ts_address": ts_addr, "ts_address_bytes": ts_addr_bytes, "ts_actions": ts_actions,
        "ts_context_sizes": ts_ctx_sizes,
        "ts_decoder_reads": ts_reads, "ts_decoder_context_offset": ts_ctx_off,
        "meta_fields": [[f, sz, o] for f, sz, o in meta_fields],
    }
    os.makedirs(os.path.dirname(OUT_JSON), exist_ok=True)
    with open(OUT_JSON, "w") as f:
        json.dump(tables, f, indent=1, sort_keys=True)

    L = []
    L.append("/- GENERATED by /verif/translate/translate.py from /repo — do not edit. -/")
    L.append("namespace Zk.Generated")
    L.append("")
    def table(name, rows):
        L.append(f"def {name} : List (List UInt8 × Nat) := [")
        L.append(",\n".join(f"  ({lean_str(n)}, {v})" for n, v in rows))
        L.append("]")
        L.append("")
    table("rustInstructions", instrs)
    table("rustProofTypes", ptypes)
    table("tsInstructions", ts_instrs)
    table("tsProofTypes", ts_ptypes)
    # (proof type name, data size, context size) in proof-type order
    L.append("/-- (proof type, proof-data size, context size) from the Pod struct definitions -/")
    L.append("def rustProofData : List (List UInt8 × Nat × Nat) := [")
    L.append(",\n".join(f"  ({lean_str(d['proof_type'])}, {d['data_size']}, {d['context_size']})" for d in impls))
    L.append("]")
    L.append("")
    L.append("/-- data type name ↦ declared `PROOF_TYPE` -/")
    L.append("def rustDeclaredProofType : List (List UInt8 × List UInt8) := [")
    L.append(",\n".join(f"  ({lean_str(d['data'])}, {lean_str(d['proof_type'])})" for d in impls))
    L.append("]")
    L.append("")
    L.append("/-- field layout of every proof-data struct: (data type, [(field, size)]) -/")
    L.append("def rustDataFields : List (List UInt8 × List (List UInt8 × Nat)) := [")
    L.append(",\n".join("  (" + lean_str(d["data"]) + ", [" + ", ".join(f"({lean_str(f)}, {sz})" for f, _, sz in d["data_fields"]) + "])" for d in impls))
    L.append("]")
    L.append("")
    L.append("def rustContextFields : List (List UInt8 × List (List UInt8 × Nat)) := [")
    L.append(",\n".join("  (" + lean_str(d["proof_type"]) + ", [" + ", ".join(f"({lean_str(f)}, {sz})" for f, _, sz in d["context_fields"]) + "])" for d in impls))
    L.append("]")
    L.append("")
    L.append(f"def rustMetaSize : Nat := {meta_size}")
    L.append("def rustStateFields : List (List UInt8) := [" + ", ".join(lean_str(f) for f, _ in state_fields) + "]")
    L.append(f"def tsMetaSize : Nat := {tsc.get('CONTEXT_STATE_META_SIZE', 0)}")
    L.append(f"def tsCloseDiscriminator : Nat := {tsc.get('CLOSE_CONTEXT_STATE_DISCRIMINATOR', 999)}")
    L.append("/-- the header the SDK encodes: (field, size, offset) of `ProofContextStateMeta` -/")
    L.append("def rustMetaFields : List (List UInt8 × Nat × Nat) := [" + ", ".join(f"({lean_str(f)}, {sz}, {o})" for f, sz, o in meta_fields) + "]")
    L.append("/-- the client's account decoder followed through its offsets: (decoder kind, size, offset it reads at) for the")
    L.append("    header fields, and the offset from which the rest is handed on as the proof context (`none`: the")
    L.append("    translator could not follow the function) -/")
    L.append("def tsDecoderReads : Option (List (List UInt8 × Nat × Nat)) := " + ("none" if ts_reads is None else
             "some [" + ", ".join(f"({lean_str(k)}, {sz}, {off})" for k, sz, off in ts_reads) + "]"))
    L.append("def tsDecoderContextOffset : Option Nat := " + ("none" if ts_ctx_off is None else f"some {ts_ctx_off}"))
    L.append("/-- (proof type, context *account* size) as used by the TS action that sends that instruction -/")
    L.append("def tsContextAccountSizes : List (List UInt8 × Nat) := [")
    L.append(",\n".join(f"  ({lean_str(n)}, {v if v is not None else 0})" for n, v in ts_ctx_sizes))
    L.append("]")
    L.append("")
    L.append(f"def tsProgramAddress : List UInt8 := {lean_bytes(ts_addr_bytes)}")
    L.append("")
    L.append("/-- every `b\"…\"` label outside test modules: (file, function, label), source order -/")
    L.append("def rustLabels : List (List UInt8 × List UInt8 × List UInt8) := [")
    L.append(",\n".join(f"  ({lean_str(a)}, {lean_str(b)}, {lean_str(c)})" for a, b, c in labels))
    L.append("]")
    L.append("")
    L.append("/-- the distinct transcript / derivation labels of the crate, sorted -/")
    L.append("def rustLabelSet : List (List UInt8) := [")
    L.append(",\n".join("  " + lean_str(x) for x in sorted({c for _, _, c in labels})))
    L.append("]")
    L.append("")
    # secrets
    L.append("/-- secret-bearing types: (name, zeroize-on-drop, derives Debug, manual Debug prints only these expressions) -/")
    L.append("def rustSecrets : List (List UInt8 × Bool × Bool × List (List UInt8)) := [")
    rows = []
    for t in SECRET_TYPES:
        d = secrets.get(t)
        if d is None:
            rows.append(f"  ({lean_str(t)}, false, true, [])")
            continue
        exprs = [b for _, b in (d["manual_debug"]["fields"] if d["manual_debug"] else [])]
        rows.append(f"  ({lean_str(t)}, {'true' if d['zeroize_drop'] else 'false'}, {'true' if d['derive_debug'] else 'false'}, [" + ", ".join(lean_str(e) for e in exprs) + "])")
    L.append(",\n".join(rows))
    L.append("]")
    L.append("")
    L.append("end Zk.Generated")
    os.makedirs(os.path.dirname(OUT_LEAN), exist_ok=True)
    new = "\n".join(L) + "\n"
    old = read(OUT_LEAN) if os.path.exists(OUT_LEAN) else None
    if old != new:          # keep mtime stable when nothing changed (lake rebuilds less)
        with open(OUT_LEAN, "w") as f:
            f.write(new)
    print(f"translator: {len(instrs)} instructions, {len(ptypes)} proof types, {len(impls)} proof-data impls, "
          f"{len(labels)} labels, {len(secrets)} secret types, {len(ts_actions)} TS actions")


if __name__ == "__main__":
    main()
